#!/bin/sh
# maintainer helper: confirm round-4 seeded changes (layout ROOT/Cxx/out/m<i>) and see which checks catch them
# usage: tools/try_r4.sh [ROOT] [Cxx ...]
ROOT=${1:-/tmp/r4}; shift
export PV_SEED_ROOT=${PV_SEED_ROOT:-/tmp/r4v}
mkdir -p $PV_SEED_ROOT
PROPS=${@:-$(ls $ROOT | grep '^C')}
for p in $PROPS; do
 for d in $ROOT/$p/out/m*; do
  [ -f "$d/patch.diff" ] && [ -f "$d/demo.py" ] && [ -f "$d/notes.md" ] || continue
  [ -f "$d/.tried" ] && continue
  out=$(sh /verif/tools/try_seed.sh $d 2>&1)
  echo "$out" > "$d/.tried"
  clean=$(echo "$out" | sed -n '/demo on clean/{n;p}')
  suite=$(echo "$out" | sed -n '/suite with patch/{n;p}' | cut -c1-40)
  patched=$(echo "$out" | sed -n '/demo with patch/{n;p}')
  det=$(echo "$out" | grep -E "^C[0-9]+ rc=" | tr '\n' ' ')
  key=$(echo "$out" | grep -A1 "^C[0-9]* rc=1" | grep "^    " | head -3 | sed 's/^ *//' | cut -c1-120 | tr '\n' ';')
  echo "$p/$(basename $d): clean[$clean] suite[$suite] patched[$patched] => ${det:-MISSED} :: $key"
 done
done
