#!/bin/sh
# maintainer helper: round-7 refactorings (r*) and neutral patches (n*) of ONE property (layout ROOT/Cxx/out2/<X>)
# usage: tools/try_r4n.sh Cxx [ROOT]   -- the checks must stay silent
p=$1; ROOT=${2:-/tmp/r7}
W=/tmp/r7v/$p; mkdir -p $W
WT=$W/verify
[ -d "$WT" ] || git -C /repo worktree add -q --detach "$WT" HEAD
git -C "$WT" checkout -q --detach $(git -C /repo rev-parse HEAD); git -C "$WT" checkout -q -- .; git -C "$WT" clean -fdq
run() { (cd "$WT" && PYTHONPATH="$WT" timeout 600 /venv/bin/python -W ignore "$1" >/dev/null 2>&1; echo $?); }
for d in $ROOT/$p/out2/r* $ROOT/$p/out2/n*; do
  [ -f "$d/patch.diff" ] || continue
  [ -f "$d/.tried" ] && continue
  x=$(basename $d)
  git -C "$WT" checkout -q -- .; git -C "$WT" clean -fdq
  case $x in r*) c0=$(run $d/check.py);; n*) c0="$(run $d/differs.py)/$(run $d/holds.py)";; esac
  if ! git -C "$WT" apply "$d/patch.diff" 2>/dev/null; then echo "$p/$x: PATCH DOES NOT APPLY"; echo x > $d/.tried; continue; fi
  suite=$(cd "$WT" && PYTHONPATH="$WT" /venv/bin/python -m pytest -q -p no:cacheprovider --timeout=900 test 2>&1 | tail -1 | cut -c1-10)
  case $x in r*) c1=$(run $d/check.py);; n*) c1="$(run $d/differs.py)/$(run $d/holds.py)";; esac
  git -C "$WT" checkout -q -- .; git -C "$WT" clean -fdq
  rm -rf $W/scratch && mkdir -p $W/scratch && cp -r /repo/pymbolic $W/scratch/pymbolic && (cd $W/scratch && patch -p1 -s < "$d/patch.diff")
  : > $d/.tried
  res=""
  for q in C01 C02 C03 C04 C05 C06 C07 C08 C09 C10 C11 C12 C13 C14 C15 C16 C17 C18 C19 C20; do
    out=$(cd /verif && PV_REPO=$W/scratch ./check $q --no-evidence 2>&1); rc=$?
    if [ $rc -ne 0 ]; then res="$res $q=$rc"; echo "## $q rc=$rc" >> $d/.tried; echo "$out" | grep -A2 "VIOLATION\|ANALYSIS-ERROR" | grep -v "^--" | head -9 | cut -c1-400 >> $d/.tried; fi
  done
  rm -rf $W/scratch
  echo "$p/$x: clean[$c0] patched[$c1] suite[$suite] => ${res:-silent}"
done
