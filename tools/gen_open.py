#!/usr/bin/env python3
"""maintainer helper: (re)generate selftest/open_alarms.json from the tryout
logs of the round-4 refactorings / neutral patches (/tmp/r4/Cxx/out2/*/.tried)"""
import glob, json, os, re
out = []
for t in sorted(glob.glob("/tmp/r4/C*/out2/*/.tried")):
    d = os.path.dirname(t)
    p = d.split("/")[3]
    x = os.path.basename(d)
    name = f"{p}-{'u' if x.startswith('r') else 'v'}{x[1:]}"
    kind = "refactors" if x.startswith("r") else "neutral"
    if not os.path.isdir(f"/verif/{kind}/{name}"):
        continue
    for m in re.finditer(r"^## (C\d+) rc=(\d)", open(t).read(), re.M):
        out.append({"patch": name, "property": m.group(1), "exit": int(m.group(2))})
json.dump({"comment": "round-4 refactorings / neutral patches on which a check "
           "still trips although the property holds: open weaknesses of the "
           "checker (DESIGN.md 11.10); regenerate with tools/gen_open.py after "
           "tools/try_r4n.sh", "open": out},
          open("/verif/selftest/open_alarms.json", "w"), indent=1)
print(len(out), "open entries,", len({e['patch'] for e in out}), "patches")
