#!/bin/sh
# maintainer helper: confirm a seeded change and see which checks catch it.
# usage: tools/try_seed.sh <dir with patch.diff and demo.py> [props...]
D="$1"; shift
ROOT=${PV_SEED_ROOT:-/tmp/wt7}
WT=$ROOT/verify
[ -d "$WT" ] || git -C /repo worktree add -q "$WT" HEAD
git -C "$WT" checkout -q --detach $(git -C /repo rev-parse HEAD) && git -C "$WT" checkout -q -- . 
echo "== demo on clean tree (expect PASS/0)"; (cd "$WT" && PYTHONPATH="$WT" timeout 120 /venv/bin/python -W ignore "$D/demo.py" >$ROOT/demo_clean.txt 2>&1; echo "rc=$?"; tail -2 $ROOT/demo_clean.txt)
git -C "$WT" apply "$D/patch.diff" || { echo "PATCH DOES NOT APPLY"; exit 3; }
echo "== suite with patch"; (cd "$WT" && PYTHONPATH="$WT" /venv/bin/python -m pytest -q -p no:cacheprovider --timeout=900 test 2>&1 | tail -1)
echo "== demo with patch (expect FAIL/1)"; (cd "$WT" && PYTHONPATH="$WT" timeout 120 /venv/bin/python -W ignore "$D/demo.py" >$ROOT/demo_patched.txt 2>&1; echo "rc=$?"; tail -3 $ROOT/demo_patched.txt)
git -C "$WT" checkout -q -- .
echo "== checks on patched tree"
PROPS="$@"; [ -z "$PROPS" ] && PROPS="C01 C02 C03 C04 C05 C06 C07 C08 C09 C10 C11 C12 C13 C14 C15 C16 C17 C18 C19 C20"
rm -rf $ROOT/scratch && mkdir -p $ROOT/scratch && cp -r /repo/pymbolic $ROOT/scratch/pymbolic && (cd $ROOT/scratch && git apply --unsafe-paths "$D/patch.diff" 2>/dev/null || patch -p1 -s < "$D/patch.diff")
for p in $PROPS; do
  out=$(cd /verif && PV_REPO=$ROOT/scratch ./check $p --no-evidence 2>&1); rc=$?
  if [ $rc -ne 0 ]; then echo "$p rc=$rc"; echo "$out" | grep -A2 "VIOLATION\|ANALYSIS-ERROR" | grep -v "^--" | head -8 | cut -c1-260; fi
done
rm -rf $ROOT/scratch
echo "== done"
