#!/usr/bin/env python3
"""Regenerate MANIFEST.json from the table below (keeps it schema-valid)."""
import json
import os

HERE = os.path.dirname(os.path.dirname(os.path.abspath(__file__)))

# id -> (technique, level text, level note, design section)
CLAIMED = {}
NOT_APPLICABLE = {}

exec(open(os.path.join(HERE, "tools", "manifest_table.py")).read())


def main():
    checks = []
    for pid in sorted(CLAIMED):
        tech, text, note, ref = CLAIMED[pid]
        checks.append({
            "property_id": pid,
            "quick_cmd": f"./check {pid} --tier quick",
            "thorough_cmd": f"./check {pid} --tier thorough",
            "evidence_file": f"/verif/evidence/{pid}.json",
            "replay_cmd_template": f"./check {pid} --replay {{path}}",
            "engine": "pv",
            "level_claimed": {"category": "other", "text": text,
                              "design_ref": ref},
            "level_note": note,
            "technique": tech,
        })
    man = {
        "version": 1,
        "setup_cmd": "./check selfcheck",
        "hooks": {
            "guard": "PYMBOLIC_VERIF",
            "enable": "none needed: checks parse /repo's working tree with ast "
                      "and execute nothing, so no instrumentation exists",
            "baseline_off_cmd": "cd /repo && /venv/bin/python -m pytest -q "
                                "-p no:cacheprovider --timeout=900",
            "source_commits": [],
            "add_only": True,
        },
        "engines": [{
            "name": "pv",
            "path": "/verif/pv",
            "serves_properties": sorted(CLAIMED),
            "kind_free_text": "repository-specific static analyser: ast program "
                              "model (classes, C3 MRO, node table, dispatch "
                              "relation), per-handler provenance summaries over "
                              "enumerated paths, table extractors and an "
                              "operator-grammar model",
        }],
        "checks": checks,
        "not_applicable": [{"property_id": k, "reason": v}
                           for k, v in sorted(NOT_APPLICABLE.items())],
        "notes": "Static analysis only; see DESIGN.md. Exit 2 / ANALYSIS-ERROR "
                 "means the analyser could not decide (vanished anchor, unknown "
                 "idiom), never a violation.",
    }
    with open(os.path.join(HERE, "MANIFEST.json"), "w") as f:
        json.dump(man, f, indent=1)
        f.write("\n")


if __name__ == "__main__":
    main()
