#!/bin/sh
# maintainer helper: current state of the round-4 patches (names *-u*, *-v*): which checks still trip
cd /verif
(/venv/bin/python selftest/refactors.py --only=-u -v; /venv/bin/python selftest/refactors.py --only=-v -v) 2>&1 | grep -v "^        " > /tmp/r4status.txt
grep -c "^OPEN" /tmp/r4status.txt
grep "^ALARM\|^ERR2\|^CLOSED\|^SKIP" /tmp/r4status.txt | head -40
