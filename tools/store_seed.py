#!/usr/bin/env python3
"""maintainer helper: store a confirmed seeded change under /verif/seeded/.
usage: store_seed.py SRC_DIR SEED_ID PROPERTY "needs" "detected_by" ["strengthened"]"""
import json, os, shutil, sys
src, sid, prop, needs, det = sys.argv[1:6]
strengthened = sys.argv[6] if len(sys.argv) > 6 else ""
dst = f"/verif/seeded/{sid}"
os.makedirs(dst, exist_ok=True)
for f in ("patch.diff", "demo.py", "notes.md"):
    if os.path.exists(os.path.join(src, f)):
        shutil.copy(os.path.join(src, f), os.path.join(dst, f))
meta = {
    "id": sid, "property": prop,
    "origin": "independent sub-agent given only the property text and a scratch "
              "worktree of /repo",
    "needs_to_manifest": needs,
    "confirmed": "tools/try_seed.sh: patch applies to /repo HEAD; unedited suite "
                 "41 passed with it; demo.py exits 0 on the clean tree and 1 with "
                 "the patch",
    "detected_by": det,
    "checker_strengthened": strengthened,
    "how_to_rerun": "git -C /repo apply seeded/%s/patch.diff && ./check %s; "
                    "git -C /repo checkout -- ." % (sid, prop),
}
json.dump(meta, open(os.path.join(dst, "meta.json"), "w"), indent=1)
print("stored", dst)
