#!/bin/sh
# maintainer helper: run checks against /repo + one patch (scratch copy)
# usage: tools/try_one.sh PATCH [PROP ...]
P=$1; shift
S=$(mktemp -d /tmp/pv-one-XXXXXX)
cp -r /repo/pymbolic $S/pymbolic
(cd $S && patch -p1 -s < "$P") || { echo "patch does not apply"; rm -rf $S; exit 3; }
for q in ${@:-C01 C02 C03 C04 C05 C06 C07 C08 C09 C10 C11 C12 C13 C14 C15 C16 C17 C18 C19 C20}; do
  (cd /verif && PV_REPO=$S ./check $q --no-evidence 2>&1 | grep -A2 "VIOLATION\|ANALYSIS-ERROR\|Traceback\|Error" | grep -v "^--" | cut -c1-400; PV_REPO=$S ./check $q --no-evidence 2>&1 | tail -1 | cut -c1-80)
done
rm -rf $S
