#!/usr/bin/env python3
"""maintainer helper: store the confirmed round-7 refactorings (r*) and neutral
patches (n*) of /tmp/r4/Cxx/out2 under /verif/refactors/Cxx-u<i> and
/verif/neutral/Cxx-v<i>; big recorded-output files are left out."""
import glob, json, os, re, shutil, sys
ROOT = sys.argv[1] if len(sys.argv) > 1 else "/tmp/r7"
log = {}
for f in glob.glob("/tmp/r7n_C*.log"):
    for line in open(f):
        m = re.match(r"(C\d+)/(\w+): (.*)", line.strip())
        if m:
            log[(m.group(1), m.group(2))] = m.group(3)
stored = skipped = 0
for (p, x), rest in sorted(log.items()):
    src = f"{ROOT}/{p}/out2/{x}"
    if "DOES NOT APPLY" in rest:
        skipped += 1
        continue
    ok = ("clean[0] patched[0]" in rest) if x.startswith("r") else \
        ("clean[1/0] patched[0/0]" in rest)
    if "suite[41 passed" not in rest:
        ok = False
    rerecord = x.startswith("r") and "clean[1] patched[1]" in rest
    if not ok and not rerecord:
        print("not confirmed:", p, x, rest[:80]); skipped += 1; continue
    kind, tag = ("refactors", "x") if x.startswith("r") else ("neutral", "y")
    dst = f"/verif/{kind}/{p}-{tag}{x[1:]}"
    os.makedirs(dst, exist_ok=True)
    for f in os.listdir(src):
        fp = os.path.join(src, f)
        if f.startswith(".") or os.path.isdir(fp):
            continue
        if os.path.getsize(fp) > 150_000:
            continue
        shutil.copy(fp, os.path.join(dst, f))
    note = ("confirmed (tools/try_r7n.sh): patch applies to /repo HEAD, unedited "
            "suite 41 passed; ")
    note += ("check.py identical on the clean and the patched tree" if ok and
             x.startswith("r") else
             "check.py's recorded outputs predate later fix: commits in /repo "
             "(it fails alike on the clean and on the patched tree); the patch "
             "is kept as a refactoring written against the earlier tree"
             if rerecord else
             "differs.py 1 -> 0, holds.py PASS on both trees")
    json.dump({"id": os.path.basename(dst), "property": p, "round": 7,
               "kind": "behaviour-preserving refactoring" if kind == "refactors"
               else "behaviour-changing, property-neutral patch",
               "confirmed": note}, open(os.path.join(dst, "meta.json"), "w"),
              indent=1)
    stored += 1
print("stored", stored, "skipped", skipped)
